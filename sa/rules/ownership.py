"""Who may write which piece of Raft state (shared by C01-C05, C10, C18, C20).

A whole family of regressions is "a new writer to a field that had few owners": a callback that also touches the
commit index, a helper that clears the vote, a connection event that edits the voter set.  The specific rules check
*how* the owners write; this module checks that nobody else does.  Owners are roles (found by what the functions do,
see roles.py and the finder functions of the other rule modules), never names; code a refactoring moved into a new
private helper is folded back by the helper-inlined view before the rule gives up (report.run_rule)."""
import ast
from . import rule
from .. import util as U
from ..pyir import AnalysisError, unparse

WRITE_KINDS = ('write', 'aug', 'elem_write', 'elem_del', 'del', 'mutcall')


def _role_funcs(ctx):
    """role name -> set of FuncInfo"""
    P, R = ctx.P, ctx.R
    from .election import become_leader_func
    from .raftlog import loader_func
    from .membership import change_funcs
    from .raftmisc import sender_func
    from .snapshot import compaction_func
    out = {}

    def put(k, f):
        if f is not None:
            out.setdefault(k, set()).add(f)
    put('init', R.init)
    put('tick', R.tick)
    put('handler', R.handler)
    put('apply', R.apply_step)
    put('dispatch', R.dispatcher)
    put('drain', R.queue_drain)
    put('set_state', R.setState)
    for f in become_leader_func(ctx):
        put('become_leader', f)
    put('loader', loader_func(ctx))
    gate, gate_call, mut = change_funcs(ctx)
    put('gate', gate)
    put('mutation', mut)
    put('sender', sender_func(ctx))
    put('compaction', compaction_func(ctx)[0])
    # restore: assigns the voter set from its parameter
    for g in P.methods_of(R.S):
        if g is R.init:
            continue
        for st, kind in U.assigns_to_attr(P, g, R.voters):
            if kind == 'assign' and isinstance(st.value, ast.Name):
                put('restore', g)
    # transport event callbacks
    for k, m in R.slot_methods.items():
        if m is None or m is R.handler:
            continue
        put('conn_event', m)
    # the sweep that fails all requests waiting for a leader's reply
    for g in P.methods_of(R.S):
        if g in (R.handler, R.queue_drain, R.apply_step, R.init):
            continue
        if any(isinstance(c.func, ast.Subscript) and P.self_attr(U.deref1(P, g, c.func.value), g.self_name) == R.waitingReply for c in P.calls_in(g)):
            put('sweep', g)
        elif any(isinstance(d, ast.Assign) and P.self_attr(d.value, g.self_name) == R.waitingReply for d in ast.walk(g.node)):
            put('sweep', g)
    return out


def _tally_attr(ctx):
    from .election import majority_sites
    P, R = ctx.P, ctx.R
    for f, cmpn, a, counter, th, lc in majority_sites(ctx):
        ca = P.self_attr(counter, f.self_name)
        if ca and a == R.voters:
            return ca
    return None


def _check(ctx, table):
    """table: [(field description, attribute name, [owner roles], why)]"""
    P, R = ctx.P, ctx.R
    roles = _role_funcs(ctx)
    n_fields = 0
    for what, attr, owners, why in table:
        if not attr:
            raise AnalysisError('%s: field role `%s` not bound' % (ctx.current_rule, what))
        allowed = set()
        for o in owners:
            allowed |= roles.get(o, set())
        n_fields += 1
        writers = {}
        for f in P.methods_of(R.S):
            for a in P.accesses(f):
                if a.attr == attr and a.kind in WRITE_KINDS:
                    writers.setdefault(f, []).append(a)
        ctx.tick(len(writers))
        bad = [f for f in writers if f not in allowed]
        # a private method nobody calls and nobody references is dead code, not an owner
        live_bad = []
        for f in bad:
            if f.name.startswith('__') and not f.name.endswith('__') and not P.callers_of(f) and not _referenced(P, R.S, f):
                ctx.info('%s writes self.%s but is never called' % (f.qualname, attr), f.loc(), 'dead code, not counted as a writer')
                continue
            live_bad.append(f)
        if not live_bad:
            ctx.ok('%s (self.%s) is written only by its owners' % (what, attr), '', '%d writer function(s): %s; owners: %s'
                   % (len(writers), ', '.join(sorted(f.name for f in writers)), ', '.join(owners)))
        for f in live_bad:
            a = writers[f][0]
            ctx.violation('%s:writes-%s' % (f.qualname, what.replace(' ', '-')), f.loc(a.node),
                          '%s writes %s (`%s`); its owners are {%s}. %s' % (f.qualname, what, unparse(a.node)[:60], ', '.join(owners), why),
                          instance='%s (self.%s) is written only by its owners' % (what, attr))
    ctx.expect_min(max(1, n_fields))


def _referenced(P, S, f):
    for g in P.methods_of(S):
        if g is f:
            continue
        for n in ast.walk(g.node):
            if isinstance(n, ast.Attribute) and n.attr == f.name and not isinstance(getattr(n, 'ctx', None), ast.Store):
                return True
    return False


@rule('R-owners-election', 'current term, recorded vote, Raft state, vote tally, election deadline and leader pointer are written '
                           'only by the tick (candidacy / fallback), the message handler, the state setter and the become-leader function')
def r_owners_election(ctx):
    R = ctx.R
    _check(ctx, [
        ('current term', R.currentTerm, ['init', 'tick', 'handler'], 'A term changed elsewhere is not paired with the vote reset / step-down the two owners perform.'),
        ('recorded vote', R.votedFor, ['init', 'tick', 'handler'], 'A vote changed elsewhere allows two votes in one term.'),
        ('raft state', R.raftState, ['init', 'set_state'], 'State changes bypassing the setter skip its bookkeeping.'),
        ('vote tally', _tally_attr(ctx), ['init', 'tick', 'handler'], 'Votes counted elsewhere are not tied to a response of the current term.'),
        ('election deadline', R.electionDeadline, ['init', 'tick', 'handler'], 'A deadline moved elsewhere delays or triggers elections outside the protocol.'),
        ('leader pointer', R.leaderPtr, ['init', 'tick', 'handler', 'become_leader'], 'Commands are forwarded to whoever this names.'),
    ])


@rule('R-owners-log', 'the log, the applied index, the commit index and the per-follower match / next indices are written only '
                      'by their protocol owners')
def r_owners_log(ctx):
    R = ctx.R
    _check(ctx, [
        ('log', R.log, ['init', 'loader', 'become_leader', 'handler', 'drain'], 'Entries appended or removed elsewhere are not covered by the append / truncate rules.'),
        ('applied index', R.lastApplied, ['init', 'apply', 'loader'], 'The applied index must move only with the entries it counts.'),
        ('commit index', R.commitIndex, ['init', 'tick', 'handler'], 'A commit index moved elsewhere is backed neither by a majority nor by the leader\'s message.'),
        ('match index', R.matchIndex, ['init', 'handler', 'become_leader', 'mutation', 'restore', 'conn_event'], 'A match index raised elsewhere counts replicas that were never acknowledged.'),
        ('next index', R.nextIndex, ['init', 'handler', 'become_leader', 'mutation', 'restore', 'conn_event', 'sender'], ''),
    ])


@rule('R-owners-membership', 'the voter set, the pending-change marker, the no-op index and the observer / connected sets are '
                             'written only by the membership functions and the transport callbacks')
def r_owners_membership(ctx):
    P, R = ctx.P, ctx.R
    from .membership import change_funcs, pending_marker
    gate, gate_call, mut = change_funcs(ctx)
    marks = pending_marker(ctx, gate)
    table = [
        ('voter set', R.voters, ['init', 'mutation', 'restore'], 'Majorities are computed over this set.'),
        ('observer set', R.observers, ['init', 'conn_event'], ''),
        ('connected set', R.connected, ['init', 'conn_event'], ''),
    ]
    if marks:
        table.append(('pending membership marker', marks[0], ['init', 'gate', 'drain'], 'The marker serialises membership changes.'))
    _check(ctx, table)


@rule('R-owners-callbacks', 'the tables of callbacks waiting for a commit / for the leader\'s reply are written only by the queue '
                            'drain, the message handler, the apply step and the leader-change sweep')
def r_owners_callbacks(ctx):
    R = ctx.R
    _check(ctx, [
        ('commit-wait table', R.waitingCommit, ['init', 'apply', 'handler', 'drain'], 'A callback stored or removed elsewhere is fired twice or never.'),
        ('reply-wait table', R.waitingReply, ['init', 'drain', 'handler', 'sweep'], 'A callback stored or removed elsewhere is fired twice or never.'),
    ])


@rule('R-owners-liveness', 'the last-response table is written only when a reply arrives, when this node is elected and when a '
                           'voter is added')
def r_owners_liveness(ctx):
    R = ctx.R
    _check(ctx, [
        ('last-response table', R.lastResponseTime, ['init', 'handler', 'become_leader', 'mutation'], 'Anything else that refreshes it keeps a cut-off leader in office.'),
    ])


def _chunk_buffer_attr(ctx):
    """the attribute in which the handler collects the chunks of a long entry: assigned / extended from message['data']"""
    P, R = ctx.P, ctx.R
    h = R.handler
    msg = R.handler_msg_param
    buf = None
    for n in ast.walk(h.node):
        if isinstance(n, (ast.Assign, ast.AugAssign)):
            v = U.deref1(P, h, n.value)
            if isinstance(v, ast.Subscript) and isinstance(v.value, ast.Name) and v.value.id == msg and isinstance(v.slice, ast.Constant) and v.slice.value == 'data':
                t = n.targets[0] if isinstance(n, ast.Assign) else n.target
                buf = P.self_attr(t, h.self_name) or buf
    return buf


@rule('R-owners-chunk-buffer', 'the buffer in which the chunks of a long entry are collected is written only by the message handler')
def r_owners_chunk_buffer(ctx):
    buf = _chunk_buffer_attr(ctx)
    if not buf:
        raise AnalysisError('R-owners-chunk-buffer: chunk buffer attribute not found in the handler')
    _check(ctx, [
        ('chunk reassembly buffer', buf, ['init', 'handler'],
         'A reset from elsewhere (a disconnect of any peer, a tick) in the middle of a transfer makes the next chunk raise or be appended to nothing.'),
    ])
